// Package drive runs the real pprof driver end to end, in process, with every
// plug-in replaced by a deterministic fake: flags, fetcher, symbolizer, object
// tool, UI, writer, HTTP server.
package drive

import (
	"bytes"
	"errors"
	"fmt"
	"io"
	"net/http"
	"net/http/httptest"
	"os"
	"path/filepath"
	"regexp"
	"sort"
	"strings"
	"sync"
	"time"

	"github.com/google/pprof/internal/driver"
	"github.com/google/pprof/internal/plugin"
	"github.com/google/pprof/internal/verifrt"
	"github.com/google/pprof/profile"
)

// Flags is a fake plugin.FlagSet.
type Flags struct {
	Bools   map[string]bool
	Ints    map[string]int
	Floats  map[string]float64
	Strings map[string]string
	Lists   map[string][]string
	Args    []string
}

func (Flags) ExtraUsage() string      { return "" }
func (Flags) AddExtraUsage(eu string) {}
func (f Flags) Bool(s string, d bool, c string) *bool {
	if b, ok := f.Bools[s]; ok {
		return &b
	}
	return &d
}
func (f Flags) Int(s string, d int, c string) *int {
	if i, ok := f.Ints[s]; ok {
		return &i
	}
	return &d
}
func (f Flags) Float64(s string, d float64, c string) *float64 {
	if g, ok := f.Floats[s]; ok {
		return &g
	}
	return &d
}
func (f Flags) String(s, d, c string) *string {
	if t, ok := f.Strings[s]; ok {
		return &t
	}
	return &d
}
func (f Flags) StringList(s, d, c string) *[]*string {
	l := []*string{}
	for _, v := range f.Lists[s] {
		v := v
		l = append(l, &v)
	}
	return &l
}
func (f Flags) Parse(func()) []string { return f.Args }

// UI is a scripted plugin.UI that records everything printed.
type UI struct {
	mu    sync.Mutex
	Lines []string // input lines; EOF afterwards
	pos   int
	Out   []string // Print
	Errs  []string // PrintErr
	ErrAt []int    // per message: how many input lines had been read when it was printed
	OutAt []int    // the same for Out
	// OnRead, if set, is called before each ReadLine with the index of the line.
	OnRead func(i int)
}

func (u *UI) ReadLine(prompt string) (string, error) {
	u.mu.Lock()
	defer u.mu.Unlock()
	if u.OnRead != nil {
		u.OnRead(u.pos)
	}
	if u.pos >= len(u.Lines) {
		return "", io.EOF
	}
	l := u.Lines[u.pos]
	u.pos++
	return l, nil
}
func (u *UI) Print(args ...interface{}) {
	u.mu.Lock()
	u.Out = append(u.Out, fmt.Sprint(args...))
	u.OutAt = append(u.OutAt, u.pos)
	u.mu.Unlock()
}
func (u *UI) PrintErr(args ...interface{}) {
	u.mu.Lock()
	u.Errs = append(u.Errs, fmt.Sprint(args...))
	u.ErrAt = append(u.ErrAt, u.pos)
	u.mu.Unlock()
}
func (u *UI) IsTerminal() bool                    { return false }
func (u *UI) WantBrowser() bool                   { return false }
func (u *UI) SetAutoComplete(func(string) string) {}

// Writer is a fake plugin.Writer collecting output per name, in open order.
type Writer struct {
	mu    sync.Mutex
	Files []*OutFile
}

// OutFile is one opened output.
type OutFile struct {
	Name string
	bytes.Buffer
	Closed bool
}

func (f *OutFile) Close() error { f.Closed = true; return nil }

func (w *Writer) Open(name string) (io.WriteCloser, error) {
	w.mu.Lock()
	defer w.mu.Unlock()
	f := &OutFile{Name: name}
	w.Files = append(w.Files, f)
	return f, nil
}

// Last returns the contents of the most recently opened output.
func (w *Writer) Last() []byte {
	w.mu.Lock()
	defer w.mu.Unlock()
	if len(w.Files) == 0 {
		return nil
	}
	return w.Files[len(w.Files)-1].Bytes()
}

// Fetcher serves profiles from memory. A source maps to encoded bytes (parsed
// afresh on every fetch, so callers never share structure), or to an error.
type Fetcher struct {
	Data map[string][]byte
	Prof map[string]func() *profile.Profile
	Errs map[string]error
	// Hook, if set, is called at the start of every Fetch (scheduling seam).
	Hook func(src string)
	// Src, if set for a source, is returned as the "fetched from" URL.
	Src map[string]string
	// After, if set, is called when a Fetch is about to return (completion seam).
	After func(src string)
	// Nil lists sources for which Fetch returns (nil, "", nil).
	Nil map[string]bool
}

func (f *Fetcher) Fetch(src string, duration, timeout time.Duration) (*profile.Profile, string, error) {
	if f.Hook != nil {
		f.Hook(src)
	}
	if f.After != nil {
		defer f.After(src)
	}
	if f.Nil[src] {
		return nil, "", nil
	}
	if e, ok := f.Errs[src]; ok {
		return nil, "", e
	}
	if mk, ok := f.Prof[src]; ok {
		return mk(), f.Src[src], nil
	}
	b, ok := f.Data[src]
	if !ok {
		return nil, "", fmt.Errorf("no such source %q", src)
	}
	p, err := profile.ParseData(b)
	if err != nil {
		return nil, "", err
	}
	return p, f.Src[src], nil
}

// NopSym is a Symbolizer that does nothing.
type NopSym struct{}

func (NopSym) Symbolize(mode string, srcs plugin.MappingSources, prof *profile.Profile) error {
	return nil
}

// NoObj is an ObjTool without any object files.
type NoObj struct{}

func (NoObj) Open(file string, start, limit, offset uint64, relocationSymbol string) (plugin.ObjFile, error) {
	return nil, errors.New("no object files in the harness")
}
func (NoObj) Disasm(file string, start, end uint64, intelSyntax bool) ([]plugin.Inst, error) {
	return nil, errors.New("no object files in the harness")
}

var _ = regexp.MustCompile

// Session describes one invocation of pprof.
type Session struct {
	Flags Flags
	Fetch plugin.Fetcher
	Sym   plugin.Symbolizer
	Obj   plugin.ObjTool
	UI    *UI
	W     *Writer
	HTTP  func(*plugin.HTTPServerArgs) error
	Tr    http.RoundTripper
	// RealSym leaves the Sym plug-in unset, so that pprof installs its own symbolizer (local
	// symbolization through Obj, remote through Tr, demangling).
	RealSym bool
	// RealWriter leaves the Writer plug-in unset: reports go to real files through pprof's own writer.
	RealWriter bool
}

// Result of a session.
type Result struct {
	Err      error
	Panic    any
	Stack    string
	Out      []byte // last output file
	UI       *UI
	W        *Writer
	Handlers map[string]http.Handler
}

var sandbox string

// Sandbox returns a private scratch directory for this process and points the
// environment variables pprof consults at it.
func Sandbox() string {
	if sandbox != "" {
		return sandbox
	}
	base := os.Getenv("VERIF_SANDBOX")
	if base == "" {
		base = filepath.Join(os.TempDir(), "verif-sbx")
	}
	sandbox = filepath.Join(base, fmt.Sprintf("p%d", os.Getpid()))
	os.RemoveAll(sandbox)
	os.MkdirAll(filepath.Join(sandbox, "home"), 0755)
	os.MkdirAll(filepath.Join(sandbox, "cfg"), 0755)
	os.MkdirAll(filepath.Join(sandbox, "tmp"), 0755)
	os.MkdirAll(filepath.Join(sandbox, "bin"), 0755)
	os.Setenv("HOME", filepath.Join(sandbox, "home"))
	os.Setenv("XDG_CONFIG_HOME", filepath.Join(sandbox, "cfg"))
	os.Setenv("PPROF_TMPDIR", filepath.Join(sandbox, "tmp"))
	os.Setenv("PPROF_BINARY_PATH", filepath.Join(sandbox, "bin"))
	os.Setenv("TMPDIR", filepath.Join(sandbox, "tmp"))
	os.Unsetenv("PPROF_TOOLS")
	os.Setenv("PATH", filepath.Join(sandbox, "bin")) // no external tools: LookPath is fast and finds nothing
	os.Setenv("TZ", "UTC")
	return sandbox
}

// Cleanup removes the sandbox.
func Cleanup() {
	if sandbox != "" {
		os.RemoveAll(sandbox)
	}
}

// Run executes one pprof invocation. Process-global driver state is reset
// first, so each call behaves like a fresh process.
func Run(s *Session) (res *Result) {
	Sandbox()
	driver.VerifReset()
	return RunNoReset(s)
}

// RunNoReset is Run without resetting the driver's global state.
func RunNoReset(s *Session) (res *Result) {
	if s.UI == nil {
		s.UI = &UI{}
	}
	if s.W == nil {
		s.W = &Writer{}
	}
	if s.Sym == nil && !s.RealSym {
		s.Sym = NopSym{}
	}
	if s.Obj == nil {
		s.Obj = NoObj{}
	}
	res = &Result{UI: s.UI, W: s.W}
	o := &plugin.Options{
		Writer: s.W, Flagset: s.Flags, Fetch: s.Fetch, Sym: s.Sym, Obj: s.Obj, UI: s.UI,
		HTTPTransport: s.Tr,
	}
	if s.RealWriter {
		o.Writer = nil // pprof's own writer: real files, relative to the working directory
	}
	if o.HTTPTransport == nil {
		o.HTTPTransport = failTransport{}
	}
	o.HTTPServer = func(a *plugin.HTTPServerArgs) error {
		res.Handlers = a.Handlers
		if s.HTTP != nil {
			return s.HTTP(a)
		}
		return nil
	}
	func() {
		defer func() {
			if r := recover(); r != nil {
				res.Panic = r
				res.Stack = stack()
			}
		}()
		res.Err = driver.PProf(o)
	}()
	res.Out = s.W.Last()
	return res
}

type failTransport struct{}

func (failTransport) RoundTrip(*http.Request) (*http.Response, error) {
	return nil, errors.New("no network in the harness")
}

// Report runs a one-shot report command on encoded profiles and returns the
// report bytes. flags entries are "name" (bool), "name=value".
func Report(sources map[string][]byte, args []string, flags ...string) *Result {
	s := &Session{Fetch: &Fetcher{Data: sources}, Flags: MkFlags(args, flags...)}
	return Run(s)
}

// MkFlags builds a flag set; output goes to the fake writer.
func MkFlags(args []string, flags ...string) Flags {
	f := Flags{Bools: map[string]bool{}, Ints: map[string]int{}, Floats: map[string]float64{}, Strings: map[string]string{}, Lists: map[string][]string{}, Args: args}
	f.Strings["output"] = "OUT"
	f.Strings["symbolize"] = "none"
	for _, fl := range flags {
		AddFlag(&f, fl)
	}
	return f
}

var intFlags = map[string]bool{"nodecount": true, "seconds": true, "timeout": true}
var floatFlags = map[string]bool{"nodefraction": true, "edgefraction": true, "divide_by": true}
var listFlags = map[string]bool{"base": true, "diff_base": true}

// AddFlag adds "name" or "name=value" to f with the type pprof declares.
func AddFlag(f *Flags, fl string) {
	kv := strings.SplitN(fl, "=", 2)
	name := kv[0]
	if len(kv) == 1 {
		f.Bools[name] = true
		return
	}
	v := kv[1]
	switch {
	case intFlags[name]:
		var n int
		fmt.Sscan(v, &n)
		f.Ints[name] = n
	case floatFlags[name]:
		var x float64
		fmt.Sscan(v, &x)
		f.Floats[name] = x
	case listFlags[name]:
		f.Lists[name] = append(f.Lists[name], v)
	case v == "true" || v == "false":
		if boolFlags[name] {
			f.Bools[name] = v == "true"
		} else {
			f.Strings[name] = v
		}
	default:
		f.Strings[name] = v
	}
}

var boolFlags = map[string]bool{"call_tree": true, "mean": true, "noinlines": true, "showcolumns": true,
	"relative_percentages": true, "drop_negative": true, "compact_labels": true, "trim": true,
	"normalize": true, "intel_syntax": true, "no_browser": true}

// Encode serialises a profile (uncompressed); it panics on error because every
// caller passes profiles it built itself.
func Encode(p *profile.Profile) []byte {
	var b bytes.Buffer
	if err := p.WriteUncompressed(&b); err != nil {
		panic(err)
	}
	return b.Bytes()
}

// Web starts the web UI on the given sources and returns the handler map.
func Web(sources map[string][]byte, args []string, flags ...string) *Result {
	fl := MkFlags(args, flags...)
	delete(fl.Strings, "output")
	fl.Strings["http"] = "localhost:8080"
	fl.Bools["no_browser"] = true
	s := &Session{Fetch: &Fetcher{Data: sources}, Flags: fl}
	return Run(s)
}

// Get performs a request against a handler map.
func Get(h map[string]http.Handler, method, target string) (code int, body []byte, pan any) {
	path := target
	if i := strings.IndexByte(path, '?'); i >= 0 {
		path = path[:i]
	}
	hd := h[path]
	if hd == nil {
		return 404, nil, nil
	}
	rec := httptest.NewRecorder()
	req := httptest.NewRequest(method, "http://localhost:8080"+target, nil)
	func() {
		defer func() {
			if r := recover(); r != nil {
				pan = r
			}
		}()
		hd.ServeHTTP(rec, req)
	}()
	return rec.Code, rec.Body.Bytes(), pan
}

// GetFull is Get over a response writer whose every method is a scheduling point
// under an exploration (the network side of a handler is an environment seam), and
// it also returns the headers a client acts on (Location, Content-Type,
// Content-Disposition).
func GetFull(h map[string]http.Handler, method, target string) (code int, header string, body []byte, pan any) {
	path := target
	if i := strings.IndexByte(path, '?'); i >= 0 {
		path = path[:i]
	}
	hd := h[path]
	if hd == nil {
		return 404, "", nil, nil
	}
	rec := httptest.NewRecorder()
	req := httptest.NewRequest(method, "http://localhost:8080"+target, nil)
	func() {
		defer func() {
			if r := recover(); r != nil {
				pan = r
			}
		}()
		hd.ServeHTTP(yieldingWriter{rec}, req)
	}()
	for _, k := range []string{"Location", "Content-Type", "Content-Disposition"} {
		if v := rec.Header().Values(k); len(v) > 0 {
			header += fmt.Sprintf("%s: %q\n", k, v)
		}
	}
	return rec.Code, header, rec.Body.Bytes(), pan
}

type yieldingWriter struct{ w http.ResponseWriter }

func (y yieldingWriter) Header() http.Header {
	verifrt.Yield("ResponseWriter.Header")
	return y.w.Header()
}
func (y yieldingWriter) Write(b []byte) (int, error) {
	verifrt.Yield("ResponseWriter.Write")
	return y.w.Write(b)
}
func (y yieldingWriter) WriteHeader(code int) {
	verifrt.Yield("ResponseWriter.WriteHeader")
	y.w.WriteHeader(code)
}

// Paths lists the handler paths.
func Paths(h map[string]http.Handler) []string {
	var ps []string
	for p := range h {
		ps = append(ps, p)
	}
	sort.Strings(ps)
	return ps
}

func stack() string {
	b := make([]byte, 16<<10)
	n := runtimeStack(b)
	lines := strings.Split(string(b[:n]), "\n")
	var out []string
	for _, l := range lines {
		if strings.Contains(l, "github.com/google/pprof") && !strings.Contains(l, "verifh/") {
			out = append(out, strings.TrimSpace(l))
		}
		if len(out) >= 10 {
			break
		}
	}
	return strings.Join(out, "\n")
}
