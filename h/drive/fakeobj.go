package drive

import (
	"regexp"

	"github.com/google/pprof/internal/plugin"
)

// FakeObj is a deterministic object tool: every file opens, has a handful of
// symbols covering the addresses the harness uses, and disassembles to two
// instructions per 16 bytes with source positions.
type FakeObj struct{}

type fakeObjFile struct{ name string }

func (FakeObj) Open(file string, start, limit, offset uint64, relocationSymbol string) (plugin.ObjFile, error) {
	return &fakeObjFile{file}, nil
}

func (FakeObj) Disasm(file string, start, end uint64, intelSyntax bool) ([]plugin.Inst, error) {
	var out []plugin.Inst
	for a := start; a < end && len(out) < 64; a += 8 {
		out = append(out, plugin.Inst{Addr: a, Text: "op", Function: "fn", File: "/src/x.go", Line: int(a % 7)})
	}
	return out, nil
}

func (f *fakeObjFile) Name() string                        { return f.name }
func (f *fakeObjFile) ObjAddr(addr uint64) (uint64, error) { return addr, nil }
func (f *fakeObjFile) BuildID() string                     { return "" }
func (f *fakeObjFile) SourceLine(addr uint64) ([]plugin.Frame, error) {
	return []plugin.Frame{{Func: "fn", File: "/src/x.go", Line: int(addr % 7)}}, nil
}
func (f *fakeObjFile) Symbols(r *regexp.Regexp, addr uint64) ([]*plugin.Sym, error) {
	var out []*plugin.Sym
	for _, s := range []struct {
		name  string
		start uint64
	}{{"a", 0x1000}, {"b", 0x1100}, {"c", 0x1200}, {"d", 0x8000}, {"e", 0x8100}} {
		if r != nil && !r.MatchString(s.name) {
			continue
		}
		out = append(out, &plugin.Sym{Name: []string{s.name}, File: f.name, Start: s.start, End: s.start + 0xff})
	}
	return out, nil
}
func (f *fakeObjFile) Close() error { return nil }
