package drive

import "runtime"

func runtimeStack(b []byte) int { return runtime.Stack(b, false) }
