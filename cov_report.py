#!/usr/bin/env python3
"""cov_report.py <ID> [--all]: uncovered statement blocks (from build/cov/<ID>.txt, see cov.sh) inside
the functions named in the property's anchors.mechanism[].where (or, with --all, every function of the
anchored files).  Development aid for finding enumeration gaps; decides nothing."""
import json, re, sys, subprocess, collections
pid = sys.argv[1]; allf = '--all' in sys.argv
prop = [json.loads(l) for l in open('/verif/properties.jsonl') if json.loads(l)['id'] == pid][0]
files = [f for f in prop['anchors']['files'] if f.endswith('.go')]
names = set()
for m in prop['anchors']['mechanism']:
    for w in re.findall(r'[A-Za-z_][A-Za-z0-9_.]*', m['where']):
        names.add(w.split('.')[-1])
blocks = collections.defaultdict(dict)
for l in open('/verif/build/cov/%s.txt' % pid):
    m = re.match(r'github.com/google/pprof/(\S+):(\d+)\.(\d+),(\d+)\.(\d+) (\d+) (\d+)', l)
    if not m: continue
    f = m.group(1)
    k = (int(m.group(2)), int(m.group(3)), int(m.group(4)), int(m.group(5)))
    blocks[f][k] = max(blocks[f].get(k, 0), int(m.group(7)))
for f in files:
    if f not in blocks: 
        print('## %s: no coverage data' % f); continue
    src = open('/repo/' + f).read().split('\n')
    # function extents
    funcs = []
    for i, line in enumerate(src):
        m = re.match(r'func (\([^)]*\) )?([A-Za-z0-9_]+)', line)
        if m: funcs.append((i + 1, m.group(2)))
    def fn(line):
        cur = None
        for s, n in funcs:
            if s <= line: cur = n
        return cur
    unc = sorted(k for k, c in blocks[f].items() if c == 0)
    byfn = collections.defaultdict(list)
    for k in unc: byfn[fn(k[0])].append(k)
    for n, ks in byfn.items():
        if not allf and n not in names: continue
        print('## %s %s' % (f, n))
        for k in ks:
            a, b = k[0], k[2]
            txt = ' | '.join(s.strip() for s in src[a - 1:min(b, a + 3)])
            print('   %d-%d: %s' % (a, b, txt[:160]))
