#!/usr/bin/env python3
"""C11 detection demo unanchored: RemoveUninteresting compiles drop_frames without anchoring: names merely containing a match are dropped.

Exact-text substitution on the current /repo/profile/prune.go; nothing under /repo is
touched. Prints the path of a `go build -overlay` json:
    ov=$(python3 /verif/demos/C11_unanchored.py)
    cd /repo && go test -overlay $ov -vet=off -count=1 ./...     # existing suite
    cd /verif && ./pmc check C11 --solo --extra $ov              # must report a VIOLATION
"""
import json, os
SRC = '/repo/profile/prune.go'
OUT = '/tmp/c11-demo/unanchored'
OLD = 'regexp.Compile("^(" + p.DropFrames + ")$")'
NEW = 'regexp.Compile(p.DropFrames)'
s = open(SRC).read()
assert s.count(OLD) == 1, 'pattern not found exactly once in ' + SRC
os.makedirs(OUT, exist_ok=True)
dst = os.path.join(OUT, os.path.basename(SRC))
open(dst, 'w').write(s.replace(OLD, NEW))
ov = os.path.join(OUT, 'overlay.json')
json.dump({'Replace': {SRC: dst}}, open(ov, 'w'))
print(ov)
