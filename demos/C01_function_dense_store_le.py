"""Detection demo for C01 (dense-table test `f.ID <` -> `f.ID <=` when storing functions in postDecode).

Prints the path of a `go build -overlay` JSON that replaces /repo/profile/encode.go with a
mutated copy (exact-text substitution on the current file; /repo is not touched):
    ov=$(python3 /verif/demos/C01_function_dense_store_le.py)
    cd /repo && go test -overlay $ov -vet=off -count=1 ./...     # suite still passes
    cd /verif && ./pmc check C01 --solo --extra $ov               # reports VIOLATION
Expected class: panic/write-parse (function id = number of functions + 1)
"""
import json, os
R = '/repo/'
rel = 'profile/encode.go'
old = '\t\tif f.ID < uint64(len(functionIds)) {'
new = '\t\tif f.ID <= uint64(len(functionIds)) {'
s = open(R + rel).read()
assert s.count(old) == 1, (rel, 'pattern must occur exactly once', s.count(old))
s = s.replace(old, new, 1)
d = '/tmp/c01-demo/function_dense_store_le'
os.makedirs(d, exist_ok=True)
dst = d + '/' + rel.replace('/', '__')
open(dst, 'w').write(s)
json.dump({"Replace": {R + rel: dst}}, open(d + '/overlay.json', 'w'))
print(d + '/overlay.json')
