"""Detection demo for C03: combineHeaders keeps the last duration instead of the sum.

Prints the path of a `go build -overlay` JSON that replaces /repo/profile/merge.go by a
copy with (a) the candidate repairs F1,F2,F3 that still apply to the current tree (so
that only the mutation is left to find) and (b) the one-line mutation below, as an
exact-text substitution on the current file. Nothing under /repo is touched.

    ov=$(python3 /verif/demos/C03_duration_last.py)
    cd /repo && go test -overlay $ov -vet=off -count=1 ./...      # suite result
    cd /verif && ./pmc check C03 --solo --extra $ov               # must report a VIOLATION
"""
import json, os, subprocess, sys

REL = 'profile/merge.go'
OLD = '\t\tdurationNanos += s.DurationNanos'
NEW = '\t\tdurationNanos = s.DurationNanos'

def fixed_base():
    """merge.go with the candidate repairs that still apply (else the file as it is)."""
    ok = []
    for f in ('F1', 'F2', 'F3'):
        r = subprocess.run([sys.executable, '/verif/notes/candidate_fixes.py', f], capture_output=True, text=True)
        if r.returncode == 0:
            ok.append(f)
    if ok:
        r = subprocess.run([sys.executable, '/verif/notes/candidate_fixes.py', ','.join(ok)], capture_output=True, text=True, check=True)
        rep = json.load(open(r.stdout.strip()))['Replace']
        return open(rep['/repo/' + REL]).read()
    return open('/repo/' + REL).read()

src = fixed_base()
assert src.count(OLD) == 1, 'mutation site not found exactly once in ' + REL
d = '/tmp/c03-demo/duration_last'
os.makedirs(d, exist_ok=True)
dst = d + '/' + REL.replace('/', '__')
open(dst, 'w').write(src.replace(OLD, NEW, 1))
json.dump({'Replace': {'/repo/' + REL: dst}}, open(d + '/overlay.json', 'w'))
print(d + '/overlay.json')
