"""Detection demo for C18 (HTML: flame graph data no longer HTML-safe).

The flame graph page embeds the stacks as JSON inside a <script> element. The mutation
serialises them with an encoder whose HTML escaping is switched off, so '<' is written raw
instead of \\u003c and a name containing "</script>" ends the script element.
Prints the path of a `go build -overlay` JSON that replaces /repo/internal/driver/stacks.go
with a mutated copy (exact-text substitution on the current file; /repo is not touched). By
default the candidate repairs of the defects C18 already reports on the pinned tree are
applied first (see demos/C18_candidate_fix.py); pass --no-fixes to mutate the files as they are.
    ov=$(python3 /verif/demos/C18_flamegraph_json_raw_html.py)
    cd /repo && go test -overlay $ov -vet=off -count=1 ./...     # suite still passes
    cd /verif && ./pmc check C18 --solo --extra $ov               # reports VIOLATION
Expected classes: html/raw-lt-in-script-string/flamegraph/<site>, html/token-split/flamegraph/<site>
"""
import os, sys
sys.path.insert(0, os.path.dirname(os.path.abspath(__file__)))
from C18_candidate_fix import build, ALL
rel = 'internal/driver/stacks.go'
muts = [
    (rel, """	b, err := json.Marshal(stacks)
""", """	var buf bytes.Buffer
	enc := json.NewEncoder(&buf)
	enc.SetEscapeHTML(false)
	err := enc.Encode(stacks)
	b := buf.Bytes()
"""),
    (rel, """import (
	"encoding/json"
""", """import (
	"bytes"
	"encoding/json"
"""),
]
fixes = [] if '--no-fixes' in sys.argv else ALL
print(build(fixes, '/tmp/c18-demo/flamegraph_json_raw_html', muts))
