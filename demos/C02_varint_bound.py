"""Detection demo for C02 (not framework code): decodeVarint no longer stops at the end of the input.
Exact-text substitution on the current /repo/profile/proto.go; prints the path of a
`go build -overlay` JSON (under /tmp) that applies it WITHOUT touching /repo.
Usage: python3 C02_varint_bound.py [--merge other_overlay.json]
  cd /repo && go test -overlay <json> -vet=off -count=1 ./...     (suite must still pass)
  cd /verif && ./pmc check C02 --solo --extra <json>              (must report a VIOLATION)
"""
import json, os, sys
REL = 'profile/proto.go'
OLD = """		if i >= 10 || i >= len(data) {"""
NEW = """		if i >= 10 {"""
s = open('/repo/' + REL).read()
assert s.count(OLD) == 1, 'pattern not found exactly once in ' + REL
d = '/tmp/c02-demo/varint_bound'
os.makedirs(d, exist_ok=True)
dst = d + '/' + REL.replace('/', '__')
open(dst, 'w').write(s.replace(OLD, NEW, 1))
rep = {}
if '--merge' in sys.argv:
    rep.update(json.load(open(sys.argv[sys.argv.index('--merge') + 1]))['Replace'])
assert '/repo/' + REL not in rep, 'the merged overlay replaces the same file'
rep['/repo/' + REL] = dst
json.dump({'Replace': rep}, open(d + '/overlay.json', 'w'))
print(d + '/overlay.json')
