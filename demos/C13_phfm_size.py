"""Detection demo for C13: findProgramHeader passes the mapping's limit instead of its size to ProgramHeadersForMapping
(m.limit-m.start -> m.limit).

Exact-text substitution on the current /repo file; nothing under /repo is
touched. Prints the path of a `go build -overlay` JSON:
    ov=$(python3 /verif/demos/C13_phfm_size.py)
    cd /repo && go test -overlay $ov -vet=off -count=1 ./...     # passes
    cd /verif && ./pmc check C13 --solo --extra $ov              # VIOLATION objaddr/wrong-address/... and objaddr/error-although-segment-unique/...
Unless --nofix is given, the candidate repair of the defect C13 found in
elfexec.GetBase (ET_DYN user-space mappings run through the kernel heuristics)
is applied as well when /repo does not contain it yet, so that the only
violations left are those of the mutation.
"""
import json, os, sys
R = '/repo/'
NAME = 'phfm_size'
REL = 'internal/binutils/binutils.go'
OLD = 'elfexec.ProgramHeadersForMapping(phdrs, m.offset, m.limit-m.start)'
NEW = 'elfexec.ProgramHeadersForMapping(phdrs, m.offset, m.limit)'
FIXREL = 'internal/elfexec/elfexec.go'
FIXOLD = """		if base, match := kernelBase(loadSegment, stextOffset, start, limit, offset); match {
			return base, nil
		}
		// The program header, if not nil, indicates the offset in the file where"""
FIXNEW = """		if stextOffset != nil || start >= 0x8000000000000000 {
			if base, match := kernelBase(loadSegment, stextOffset, start, limit, offset); match {
				return base, nil
			}
		}
		// The program header, if not nil, indicates the offset in the file where"""
out = {}
s = open(R + REL).read()
assert OLD in s, (NAME, REL)
out[REL] = s.replace(OLD, NEW, 1)
if '--nofix' not in sys.argv:
    t = out.get(FIXREL) or open(R + FIXREL).read()
    if FIXOLD in t:
        out[FIXREL] = t.replace(FIXOLD, FIXNEW, 1)
d = '/tmp/c13-demo/' + NAME
os.makedirs(d, exist_ok=True)
ov = {}
for rel, text in out.items():
    dst = d + '/' + rel.replace('/', '__')
    open(dst, 'w').write(text)
    ov[R + rel] = dst
json.dump({"Replace": ov}, open(d + '/overlay.json', 'w'))
print(d + '/overlay.json')
