"""Candidate repair (not a mutation) for the defect C13 found in elfexec.GetBase:
for ET_DYN the kernel heuristics (kernelBase) run before the user-space formula
without the guard the ET_EXEC branch has, so a user-space mapping of a shared
object whose start - offset happens to equal the segment's vaddr (bias == the
segment's page-aligned file offset, e.g. a prelinked object at bias 0) gets
base = mapping offset instead of bias; wrong as soon as the mapping is a split
piece (offset != segment offset).

Same style as notes/candidate_fixes.py: exact-text substitution on the current
/repo file, output under /tmp, prints the path of a `go build -overlay` JSON.
    ov=$(python3 /verif/demos/C13_candidate_fix.py)
    cd /repo && go test -overlay $ov -vet=off -count=1 ./...   # passes
    cd /verif && ./pmc check C13 --solo --extra $ov            # passes
"""
import json, os
R = '/repo/'
REL = 'internal/elfexec/elfexec.go'
OLD = """		// Kernels compiled as PIE can be ET_DYN as well. Use heuristic, similar to
		// the ET_EXEC case above.
		if base, match := kernelBase(loadSegment, stextOffset, start, limit, offset); match {
			return base, nil
		}
"""
NEW = """		// Kernels compiled as PIE can be ET_DYN as well. Use heuristic, similar to
		// the ET_EXEC case above, but, as there, not for a regular user-mode
		// mapping (no kernel relocation symbol, start in the user-mode half).
		if stextOffset != nil || start >= 0x8000000000000000 {
			if base, match := kernelBase(loadSegment, stextOffset, start, limit, offset); match {
				return base, nil
			}
		}
"""
s = open(R + REL).read()
assert OLD in s, REL
d = '/tmp/c13-fix'
os.makedirs(d, exist_ok=True)
dst = d + '/' + REL.replace('/', '__')
open(dst, 'w').write(s.replace(OLD, NEW, 1))
json.dump({"Replace": {R + REL: dst}}, open(d + '/overlay.json', 'w'))
print(d + '/overlay.json')
