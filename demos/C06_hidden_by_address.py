#!/usr/bin/env python3
"""C06 detection demo hidden_by_address: FilterSamplesByName remembers fully hidden locations by address instead of by id.

Exact-text substitution on the current /repo/profile/filter.go; nothing under /repo is
touched. Prints the path of a `go build -overlay` json:
    ov=$(python3 /verif/demos/C06_hidden_by_address.py)
    cd /repo && go test -overlay $ov -vet=off -count=1 ./...     # existing suite
    cd /verif && ./pmc check C06 --solo --extra $ov              # must report a VIOLATION
"""
import json, os
SRC = '/repo/profile/filter.go'
OUT = '/tmp/c06-demo/hidden_by_address'
SUBS = [
    ("hidden := make(map[uint64]bool)", "hidden := make(map[uint64]bool) // keyed by address"),
    ("""			if len(l.Line) == 0 {
				hidden[l.ID] = true
			}
		}
		if show != nil {""", """			if len(l.Line) == 0 {
				hidden[l.Address] = true
			}
		}
		if show != nil {"""),
    ("""			if len(l.Line) == 0 {
				hidden[l.ID] = true
			} else {""", """			if len(l.Line) == 0 {
				hidden[l.Address] = true
			} else {"""),
    ("if !hidden[loc.ID] {", "if !hidden[loc.Address] {"),
]
s = open(SRC).read()
for old, new in SUBS:
    assert s.count(old) == 1, 'pattern not found exactly once in ' + SRC + ': ' + old
    s = s.replace(old, new)
os.makedirs(OUT, exist_ok=True)
dst = os.path.join(OUT, os.path.basename(SRC))
open(dst, 'w').write(s)
ov = os.path.join(OUT, 'overlay.json')
json.dump({'Replace': {SRC: dst}}, open(ov, 'w'))
print(ov)
