"""Detection demo for C14 (not part of the machinery): a threadz 'same as previous thread' record sets the preceding sample to 2 instead of adding one (variant of DESIGN demo 'threadz increment applied wrongly'; only a run of two such records shows it)

Usage:  python3 C14_threadz_same_sets_two.py   -> prints the path of a `go build -overlay` JSON that replaces
/repo/profile/legacy_profile.go by a mutated copy (exact-text substitution on the current file; /repo is not touched):
    cd /repo && go test -overlay <json> -vet=off -count=1 ./...      # the existing suite still passes
    cd /verif && ./pmc check C14 --solo --extra <json>               # C14 reports: value/threadz
"""
import json, os
R = '/repo/'
rel = 'profile/legacy_profile.go'
old = 's := p.Sample[len(p.Sample)-1]\n\t\t\t\ts.Value[0]++'
new = 's := p.Sample[len(p.Sample)-1]\n\t\t\t\ts.Value[0] = 2'
s = open(R + rel).read()
assert s.count(old) == 1, 'mutation site not found exactly once'
s = s.replace(old, new)
d = '/tmp/c14-demo/threadz_same_sets_two'
os.makedirs(d, exist_ok=True)
dst = d + '/' + rel.replace('/', '__')
open(dst, 'w').write(s)
json.dump({"Replace": {R + rel: dst}}, open(d + '/overlay.json', 'w'))
print(d + '/overlay.json')
