"""Detection demo for C01 (period type written only if both type and unit are set).

Prints the path of a `go build -overlay` JSON that replaces /repo/profile/encode.go with a
mutated copy (exact-text substitution on the current file; /repo is not touched):
    ov=$(python3 /verif/demos/C01_period_type_and.py)
    cd /repo && go test -overlay $ov -vet=off -count=1 ./...     # suite still passes
    cd /verif && ./pmc check C01 --solo --extra $ov               # reports VIOLATION
Expected class: write-parse/period_type
"""
import json, os
R = '/repo/'
rel = 'profile/encode.go'
old = 'pt != nil && (pt.typeX != 0 || pt.unitX != 0)'
new = 'pt != nil && (pt.typeX != 0 && pt.unitX != 0)'
s = open(R + rel).read()
assert s.count(old) == 1, (rel, 'pattern must occur exactly once', s.count(old))
s = s.replace(old, new, 1)
d = '/tmp/c01-demo/period_type_and'
os.makedirs(d, exist_ok=True)
dst = d + '/' + rel.replace('/', '__')
open(dst, 'w').write(s)
json.dump({"Replace": {R + rel: dst}}, open(d + '/overlay.json', 'w'))
print(d + '/overlay.json')
