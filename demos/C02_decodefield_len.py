"""Detection demo for C02 (not framework code): decodeField no longer checks a length prefix against the remaining input.
Exact-text substitution on the current /repo/profile/proto.go; prints the path of a
`go build -overlay` JSON (under /tmp) that applies it WITHOUT touching /repo.
Usage: python3 C02_decodefield_len.py [--merge other_overlay.json]
  cd /repo && go test -overlay <json> -vet=off -count=1 ./...     (suite must still pass)
  cd /verif && ./pmc check C02 --solo --extra <json>              (must report a VIOLATION)
"""
import json, os, sys
REL = 'profile/proto.go'
OLD = """		if n > uint64(len(data)) {
			return nil, errors.New("too much data")
		}
"""
NEW = """"""
s = open('/repo/' + REL).read()
assert s.count(OLD) == 1, 'pattern not found exactly once in ' + REL
d = '/tmp/c02-demo/decodefield_len'
os.makedirs(d, exist_ok=True)
dst = d + '/' + REL.replace('/', '__')
open(dst, 'w').write(s.replace(OLD, NEW, 1))
rep = {}
if '--merge' in sys.argv:
    rep.update(json.load(open(sys.argv[sys.argv.index('--merge') + 1]))['Replace'])
assert '/repo/' + REL not in rep, 'the merged overlay replaces the same file'
rep['/repo/' + REL] = dst
json.dump({'Replace': rep}, open(d + '/overlay.json', 'w'))
print(d + '/overlay.json')
