"""Detection demo for C01 (preEncode forgets to reset commentX before appending).

Prints the path of a `go build -overlay` JSON that replaces /repo/profile/encode.go with a
mutated copy (exact-text substitution on the current file; /repo is not touched):
    ov=$(python3 /verif/demos/C01_comments_not_reset.py)
    cd /repo && go test -overlay $ov -vet=off -count=1 ./...     # suite still passes
    cd /verif && ./pmc check C01 --solo --extra $ov               # reports VIOLATION
Expected class: copy/comments, gzip/comments, driver-copier/comments (second write of the same in-memory profile)
"""
import json, os
R = '/repo/'
rel = 'profile/encode.go'
old = '\tp.commentX = nil\n\tfor _, c := range p.Comments {'
new = '\tfor _, c := range p.Comments {'
s = open(R + rel).read()
assert s.count(old) == 1, (rel, 'pattern must occur exactly once', s.count(old))
s = s.replace(old, new, 1)
d = '/tmp/c01-demo/comments_not_reset'
os.makedirs(d, exist_ok=True)
dst = d + '/' + rel.replace('/', '__')
open(dst, 'w').write(s)
json.dump({"Replace": {R + rel: dst}}, open(d + '/overlay.json', 'w'))
print(d + '/overlay.json')
