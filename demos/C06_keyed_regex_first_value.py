#!/usr/bin/env python3
"""C06 detection demo keyed_regex_first_value: tagfocus=key=regexp looks only at the first value of a multi-valued label.

Exact-text substitution on the current /repo/internal/driver/driver_focus.go; nothing under /repo is
touched. Prints the path of a `go build -overlay` json:
    ov=$(python3 /verif/demos/C06_keyed_regex_first_value.py)
    cd /repo && go test -overlay $ov -vet=off -count=1 ./...     # existing suite
    cd /verif && ./pmc check C06 --solo --extra $ov              # must report a VIOLATION
"""
import json, os
SRC = '/repo/internal/driver/driver_focus.go'
OUT = '/tmp/c06-demo/keyed_regex_first_value'
SUBS = [
    ("""				for _, val := range vals {
					if rx.MatchString(val) {
						return true
					}
				}""", """				for _, val := range vals[:1] {
					if rx.MatchString(val) {
						return true
					}
				}"""),
]
s = open(SRC).read()
for old, new in SUBS:
    assert s.count(old) == 1, 'pattern not found exactly once in ' + SRC + ': ' + old
    s = s.replace(old, new)
os.makedirs(OUT, exist_ok=True)
dst = os.path.join(OUT, os.path.basename(SRC))
open(dst, 'w').write(s)
ov = os.path.join(OUT, 'overlay.json')
json.dump({'Replace': {SRC: dst}}, open(ov, 'w'))
print(ov)
