"""Candidate repairs (not mutations) for the defects C18 reports on the pinned tree.

  F11a  DOT: title, file name, [obj] and tag nodelet labels unescaped   (text from notes/candidate_fixes.py)
  F11c  callgrind: line break inside a function/file/binary name        (text from notes/candidate_fixes.py)
  N1    graph: an entry whose flat and cum are both zero (cancelling samples of a
        profile difference) or that -drop_negative removes is left out of the graph,
        but the edges from/to it stay: DOT prints `N1 -> N0` with N0 never declared,
        tree/peek/callgrind print calls to an entry that does not exist.
        Repair: selectNodesForGraph drops the edges from/to nodes it does not select.
  N2    DOT: formatted values carry the sample unit of the profile verbatim
        (label="main\\n0 of 60<unit> (100%)", tooltips, edge labels, nodelet tooltips).
        Repair: ComposeDot escapes what FormatValue returns.
  N3    callgrind: a line break inside the sample type or unit splits the
        "events:" header line. Repair: replace line breaks there as F11c does for names.

F11b (call targets compressed relative to the previous entry) is NOT repaired: the
callgrind goldens of pprof encode it; it stays a known finding.

Same style as notes/candidate_fixes.py: exact-text substitution on the current /repo
files, output under /tmp, prints the path of a `go build -overlay` JSON.
    ov=$(python3 /verif/demos/C18_candidate_fix.py)            # all of the above
    ov=$(python3 /verif/demos/C18_candidate_fix.py N1)          # a subset
    cd /repo && go test -overlay $ov -vet=off -count=1 ./...   # passes
    cd /verif && ./pmc check C18 --solo --extra $ov            # only the F11b class is left
"""
import json, os, subprocess, sys

R = '/repo/'
ALL = ['F11a', 'F11c', 'N1', 'N2', 'N3']

OWN = {
    'N1': ('internal/graph/graph.go', [("""	gNodes := make(Nodes, 0, len(nodes))
	for _, n := range nodes {
		if n == nil {
			continue
		}
		if n.Cum == 0 && n.Flat == 0 {
			continue
		}
		if dropNegative && isNegative(n) {
			continue
		}
		gNodes = append(gNodes, n)
	}
	return &Graph{gNodes}
""", """	gNodes := make(Nodes, 0, len(nodes))
	selected := make(map[*Node]bool, len(nodes))
	for _, n := range nodes {
		if n == nil {
			continue
		}
		if n.Cum == 0 && n.Flat == 0 {
			continue
		}
		if dropNegative && isNegative(n) {
			continue
		}
		gNodes = append(gNodes, n)
		selected[n] = true
	}
	// Drop the edges from or to nodes that were left out, so that no report
	// refers to a node that is not part of the graph.
	for _, n := range gNodes {
		for src := range n.In {
			if !selected[src] {
				delete(n.In, src)
			}
		}
		for dest := range n.Out {
			if !selected[dest] {
				delete(n.Out, dest)
			}
		}
	}
	return &Graph{gNodes}
""")]),
    'N2': ('internal/graph/dotgraph.go', [("""	builder := &builder{w, a, c}
""", """	// Formatted values carry the sample unit of the profile: escape them.
	config := *c
	config.FormatValue = func(v int64) string { return escapeForDot(c.FormatValue(v)) }
	builder := &builder{w, a, &config}
""")]),
    'N3': ('internal/report/report.go', [("""	fmt.Fprintln(w, "events:", o.SampleType+"("+o.OutputUnit+")")
""", """	// A line break would split the header line.
	fmt.Fprintln(w, "events:", strings.NewReplacer("\\r", " ", "\\n", " ").Replace(o.SampleType+"("+o.OutputUnit+")"))
""")]),
}


def build(which, outdir, mutations=()):
    """Apply the named repairs, then the mutations [(rel, old, new)], to copies of the
    /repo files; return the path of the overlay json."""
    files = {}
    shared = [w for w in which if w in ('F11a', 'F11c')]
    if shared:
        # text of the shared candidates lives in notes/candidate_fixes.py; a candidate
        # already committed to /repo no longer applies and is skipped
        for name in shared:
            r = subprocess.run([sys.executable, '/verif/notes/candidate_fixes.py', name], capture_output=True, text=True)
            if r.returncode != 0:
                sys.stderr.write('candidate %s does not apply any more (already in /repo?) - skipped\n' % name)
                continue
            for dst, src in json.load(open(r.stdout.strip()))['Replace'].items():
                rel = dst[len(R):]
                base = files.get(rel) or open(R + rel).read()
                if rel in files:
                    # two shared candidates on one file: re-apply on top (they touch different files today)
                    raise SystemExit('shared candidates overlap on ' + rel)
                files[rel] = open(src).read()
                del base
    for name in which:
        if name in OWN:
            rel, subs = OWN[name]
            s = files.get(rel) or open(R + rel).read()
            for old, new in subs:
                if old not in s:
                    sys.stderr.write('candidate %s does not apply any more (already in /repo?) - skipped\n' % name)
                    continue
                s = s.replace(old, new, 1)
            files[rel] = s
    for rel, old, new in mutations:
        s = files.get(rel) or open(R + rel).read()
        assert s.count(old) == 1, (rel, 'mutation pattern must occur exactly once', s.count(old))
        files[rel] = s.replace(old, new, 1)
    os.makedirs(outdir, exist_ok=True)
    ov = {}
    for rel, s in files.items():
        dst = outdir + '/' + rel.replace('/', '__')
        open(dst, 'w').write(s)
        ov[R + rel] = dst
    json.dump({"Replace": ov}, open(outdir + '/overlay.json', 'w'))
    return outdir + '/overlay.json'


if __name__ == '__main__':
    which = sys.argv[1].split(',') if len(sys.argv) > 1 else ALL
    print(build(which, '/tmp/c18-fix/' + '_'.join(which)))
