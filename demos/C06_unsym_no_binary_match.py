#!/usr/bin/env python3
"""C06 detection demo unsym_no_binary_match: Location.matchesName consults the binary name only for locations that have line information, so focus/ignore/hide by binary miss unsymbolized frames.

Exact-text substitution on the current /repo/profile/filter.go; nothing under /repo is
touched. Prints the path of a `go build -overlay` json:
    ov=$(python3 /verif/demos/C06_unsym_no_binary_match.py)
    cd /repo && go test -overlay $ov -vet=off -count=1 ./...     # existing suite
    cd /verif && ./pmc check C06 --solo --extra $ov              # must report a VIOLATION
"""
import json, os
SRC = '/repo/profile/filter.go'
OUT = '/tmp/c06-demo/unsym_no_binary_match'
SUBS = [
    ("""	if m := loc.Mapping; m != nil && re.MatchString(m.File) {
		return true
	}
	return false
}""", """	if m := loc.Mapping; m != nil && len(loc.Line) > 0 && re.MatchString(m.File) {
		return true
	}
	return false
}"""),
]
s = open(SRC).read()
for old, new in SUBS:
    assert s.count(old) == 1, 'pattern not found exactly once in ' + SRC + ': ' + old
    s = s.replace(old, new)
os.makedirs(OUT, exist_ok=True)
dst = os.path.join(OUT, os.path.basename(SRC))
open(dst, 'w').write(s)
ov = os.path.join(OUT, 'overlay.json')
json.dump({'Replace': {SRC: dst}}, open(ov, 'w'))
print(ov)
