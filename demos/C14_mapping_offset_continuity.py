"""Detection demo for C14 (not part of the machinery): two adjacent regions of one file are merged only if the second offset is one byte past the continuation (split libraries stay split)

Usage:  python3 C14_mapping_offset_continuity.py   -> prints the path of a `go build -overlay` JSON that replaces
/repo/profile/profile.go by a mutated copy (exact-text substitution on the current file; /repo is not touched):
    cd /repo && go test -overlay <json> -vet=off -count=1 ./...      # the existing suite still passes
    cd /verif && ./pmc check C14 --solo --extra <json>               # C14 reports: map/procmaps.listed, map/brief-offset-buildid.listed
"""
import json, os
R = '/repo/'
rel = 'profile/profile.go'
old = 'offset := m1.Offset + (m1.Limit - m1.Start)'
new = 'offset := m1.Offset + (m1.Limit - m1.Start) + 1'
s = open(R + rel).read()
assert s.count(old) == 1, 'mutation site not found exactly once'
s = s.replace(old, new)
d = '/tmp/c14-demo/mapping_offset_continuity'
os.makedirs(d, exist_ok=True)
dst = d + '/' + rel.replace('/', '__')
open(dst, 'w').write(s)
json.dump({"Replace": {R + rel: dst}}, open(d + '/overlay.json', 'w'))
print(d + '/overlay.json')
