"""Detection demo for C18 (HTML: one field bypasses html/template escaping).

The page title ("<binary> <sample type>") is handed to the templates as template.HTML, i.e.
as already-safe markup, so it is copied verbatim into the header of every page.
Prints the path of a `go build -overlay` JSON that replaces /repo/internal/driver/webui.go
with a mutated copy (exact-text substitution on the current file; /repo is not touched). By
default the candidate repairs of the defects C18 already reports on the pinned tree are
applied first (see demos/C18_candidate_fix.py); pass --no-fixes to mutate the files as they are.
    ov=$(python3 /verif/demos/C18_title_prebuilt_html.py)
    cd /repo && go test -overlay $ov -vet=off -count=1 ./...     # suite still passes
    cd /verif && ./pmc check C18 --solo --extra $ov               # reports VIOLATION
Expected classes: html/token-split/<page>/binary, html/raw-amp-in-text/<page>/binary (and .../sampletype)
"""
import os, sys
sys.path.insert(0, os.path.dirname(os.path.abspath(__file__)))
from C18_candidate_fix import build, ALL
rel = 'internal/driver/webui.go'
muts = [
    (rel, """	Title       string
""", """	Title       template.HTML
"""),
    (rel, """	data.Title = file + " " + profile
""", """	data.Title = template.HTML(file + " " + profile)
"""),
]
fixes = [] if '--no-fixes' in sys.argv else ALL
print(build(fixes, '/tmp/c18-demo/title_prebuilt_html', muts))
