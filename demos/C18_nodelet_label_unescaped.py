"""Detection demo for C18 (DOT: one escapeForDot call removed).

pprof's own tests exercise every escapeForDot call of the pinned tree, so the demo removes
one on the *repaired* tree: the label of a tag nodelet (candidate repair F11a) is written
verbatim again while all other repairs stay, so a label value with a double quote ends the
string early.
Prints the path of a `go build -overlay` JSON that replaces /repo/internal/graph/dotgraph.go
with a mutated copy (exact-text substitution on the repaired copy; /repo is not touched).
    ov=$(python3 /verif/demos/C18_nodelet_label_unescaped.py)
    cd /repo && go test -overlay $ov -vet=off -count=1 ./...     # suite still passes
    cd /verif && ./pmc check C18 --solo --extra $ov               # reports VIOLATION
Expected classes: dot/string-split/labelkey, dot/string-split/labelval
"""
import os, sys
sys.path.insert(0, os.path.dirname(os.path.abspath(__file__)))
from C18_candidate_fix import build, ALL
rel = 'internal/graph/dotgraph.go'
old = """nodeID, i, escapeLabelTagForDot(t.Name), nodeID, i, weight)"""
new = """nodeID, i, t.Name, nodeID, i, weight)"""
print(build(ALL, '/tmp/c18-demo/nodelet_label_unescaped', [(rel, old, new)]))
