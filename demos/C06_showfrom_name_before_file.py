#!/usr/bin/env python3
"""C06 detection demo showfrom_name_before_file: show_from prefers, inside a location, a line matched by function name over a higher line matched by file name.

Exact-text substitution on the current /repo/profile/filter.go; nothing under /repo is
touched. Prints the path of a `go build -overlay` json:
    ov=$(python3 /verif/demos/C06_showfrom_name_before_file.py)
    cd /repo && go test -overlay $ov -vet=off -count=1 ./...     # existing suite
    cd /verif && ./pmc check C06 --solo --extra $ov              # must report a VIOLATION
"""
import json, os
SRC = '/repo/profile/filter.go'
OUT = '/tmp/c06-demo/showfrom_name_before_file'
SUBS = [
    ("""	for i := len(loc.Line) - 1; i >= 0; i-- {
		if fn := loc.Line[i].Function; fn != nil {
			if re.MatchString(fn.Name) || re.MatchString(fn.Filename) {
				return i
			}
		}
	}
	return -1""", """	for i := len(loc.Line) - 1; i >= 0; i-- {
		if fn := loc.Line[i].Function; fn != nil {
			if re.MatchString(fn.Name) {
				return i
			}
		}
	}
	for i := len(loc.Line) - 1; i >= 0; i-- {
		if fn := loc.Line[i].Function; fn != nil {
			if re.MatchString(fn.Filename) {
				return i
			}
		}
	}
	return -1"""),
]
s = open(SRC).read()
for old, new in SUBS:
    assert s.count(old) == 1, 'pattern not found exactly once in ' + SRC + ': ' + old
    s = s.replace(old, new)
os.makedirs(OUT, exist_ok=True)
dst = os.path.join(OUT, os.path.basename(SRC))
open(dst, 'w').write(s)
ov = os.path.join(OUT, 'overlay.json')
json.dump({'Replace': {SRC: dst}}, open(ov, 'w'))
print(ov)
