"""Detection demo for C01 (drop the padStringArray call after the label loop in postDecode).

Prints the path of a `go build -overlay` JSON that replaces /repo/profile/encode.go with a
mutated copy (exact-text substitution on the current file; /repo is not touched):
    ov=$(python3 /verif/demos/C01_no_final_unit_padding.py)
    cd /repo && go test -overlay $ov -vet=off -count=1 ./...     # suite still passes
    cd /verif && ./pmc check C01 --solo --extra $ov               # reports VIOLATION
Expected class: write-parse/sample.num_unit
"""
import json, os
R = '/repo/'
rel = 'profile/encode.go'
old = '\t\t\t\t\tif len(units) > 0 {\n\t\t\t\t\t\tnumUnits[key] = padStringArray(units, len(numLabels[key]))\n\t\t\t\t\t}'
new = '\t\t\t\t\tif len(units) > 0 {\n\t\t\t\t\t\tnumUnits[key] = units\n\t\t\t\t\t}'
s = open(R + rel).read()
assert s.count(old) == 1, (rel, 'pattern must occur exactly once', s.count(old))
s = s.replace(old, new, 1)
d = '/tmp/c01-demo/no_final_unit_padding'
os.makedirs(d, exist_ok=True)
dst = d + '/' + rel.replace('/', '__')
open(dst, 'w').write(s)
json.dump({"Replace": {R + rel: dst}}, open(d + '/overlay.json', 'w'))
print(d + '/overlay.json')
