"""Detection demo for C02 (not framework code): parseThread bumps the previous sample on a same-as-previous marker without checking that a previous sample exists.
Exact-text substitution on the current /repo/profile/legacy_profile.go; prints the path of a
`go build -overlay` JSON (under /tmp) that applies it WITHOUT touching /repo.
Usage: python3 C02_thread_same_as_previous.py [--merge other_overlay.json]
  cd /repo && go test -overlay <json> -vet=off -count=1 ./...     (suite must still pass)
  cd /verif && ./pmc check C02 --solo --extra <json>              (must report a VIOLATION)
"""
import json, os, sys
REL = 'profile/legacy_profile.go'
OLD = """			if len(p.Sample) > 0 {
				s := p.Sample[len(p.Sample)-1]
				s.Value[0]++
			}"""
NEW = """			{
				s := p.Sample[len(p.Sample)-1]
				s.Value[0]++
			}"""
s = open('/repo/' + REL).read()
assert s.count(OLD) == 1, 'pattern not found exactly once in ' + REL
d = '/tmp/c02-demo/thread_same_as_previous'
os.makedirs(d, exist_ok=True)
dst = d + '/' + REL.replace('/', '__')
open(dst, 'w').write(s.replace(OLD, NEW, 1))
rep = {}
if '--merge' in sys.argv:
    rep.update(json.load(open(sys.argv[sys.argv.index('--merge') + 1]))['Replace'])
assert '/repo/' + REL not in rep, 'the merged overlay replaces the same file'
rep['/repo/' + REL] = dst
json.dump({'Replace': rep}, open(d + '/overlay.json', 'w'))
print(d + '/overlay.json')
