"""Detection demo for C17 (sources interned without the column).

The interning key ignores the column: with showcolumns two frames of one function on the same
line but different columns share one source, whose name shows only the first column.
Prints the path of a `go build -overlay` JSON that replaces /repo/internal/report/stacks.go
with a mutated copy (exact-text substitution on the current file; /repo is not touched). By
default the candidate repair of the defect C17 already reports on the pinned tree (F10: a
location without line information gets a frame) is applied to the same copy first, so that the
only violation left is the one the mutation causes; pass --no-fixes to mutate the file as it is.
    ov=$(python3 /verif/demos/C17_key_without_column.py)
    cd /repo && go test -overlay $ov -vet=off -count=1 ./...     # suite still passes
    cd /verif && ./pmc check C17 --solo --extra $ov               # reports VIOLATION
Expected class: identity/conflated
"""
import json, os, sys
R = '/repo/'
rel = 'internal/report/stacks.go'
FIXES = [
    # F10: keep a frame for a location without line information
    ("""			loc := sample.Location[i]
			for j := len(loc.Line) - 1; j >= 0; j-- {
				line := loc.Line[j]
				inlined := (j != len(loc.Line)-1)""", """			loc := sample.Location[i]
			lines := loc.Line
			if len(lines) == 0 {
				lines = []profile.Line{{}} // Keep a frame for unsymbolized locations.
			}
			for j := len(lines) - 1; j >= 0; j-- {
				line := lines[j]
				inlined := (j != len(lines)-1)"""),
]
old = '\t\tk := key{fn.Name, fn.Filename, line.Line, line.Column, inlined}\n'
new = '\t\tk := key{fn.Name, fn.Filename, line.Line, 0, inlined}\n'
s = open(R + rel).read()
if '--no-fixes' not in sys.argv:
    for fo, fn in FIXES:
        if fo in s:  # absent once the repair is committed to /repo
            s = s.replace(fo, fn, 1)
assert s.count(old) == 1, (rel, 'pattern must occur exactly once', s.count(old))
s = s.replace(old, new, 1)
d = '/tmp/c17-demo/key_without_column'
os.makedirs(d, exist_ok=True)
dst = d + '/' + rel.replace('/', '__')
open(dst, 'w').write(s)
json.dump({"Replace": {R + rel: dst}}, open(d + '/overlay.json', 'w'))
print(d + '/overlay.json')
