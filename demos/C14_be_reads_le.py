"""Detection demo for C14 (not part of the machinery): the 64-bit big-endian word reader of binary CPU profiles reads little-endian (DESIGN demo 'BE parser reading LE')

Usage:  python3 C14_be_reads_le.py   -> prints the path of a `go build -overlay` JSON that replaces
/repo/profile/legacy_profile.go by a mutated copy (exact-text substitution on the current file; /repo is not touched):
    cd /repo && go test -overlay <json> -vet=off -count=1 ./...      # the existing suite still passes
    cd /verif && ./pmc check C14 --solo --extra <json>               # C14 reports: rejected/cpu.cpp64be, rejected/cpu.java64be
"""
import json, os
R = '/repo/'
rel = 'profile/legacy_profile.go'
old = 'return uint64(b[7]) | uint64(b[6])<<8 | uint64(b[5])<<16 | uint64(b[4])<<24 | uint64(b[3])<<32 | uint64(b[2])<<40 | uint64(b[1])<<48 | uint64(b[0])<<56, b[8:]'
new = 'return uint64(b[0]) | uint64(b[1])<<8 | uint64(b[2])<<16 | uint64(b[3])<<24 | uint64(b[4])<<32 | uint64(b[5])<<40 | uint64(b[6])<<48 | uint64(b[7])<<56, b[8:]'
s = open(R + rel).read()
assert s.count(old) == 1, 'mutation site not found exactly once'
s = s.replace(old, new)
d = '/tmp/c14-demo/be_reads_le'
os.makedirs(d, exist_ok=True)
dst = d + '/' + rel.replace('/', '__')
open(dst, 'w').write(s)
json.dump({"Replace": {R + rel: dst}}, open(d + '/overlay.json', 'w'))
print(d + '/overlay.json')
