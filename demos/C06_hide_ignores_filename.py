#!/usr/bin/env python3
"""C06 detection demo hide_ignores_filename: hide no longer removes a line whose source file (rather than function name) matches.

Exact-text substitution on the current /repo/profile/filter.go; nothing under /repo is
touched. Prints the path of a `go build -overlay` json:
    ov=$(python3 /verif/demos/C06_hide_ignores_filename.py)
    cd /repo && go test -overlay $ov -vet=off -count=1 ./...     # existing suite
    cd /verif && ./pmc check C06 --solo --extra $ov              # must report a VIOLATION
"""
import json, os
SRC = '/repo/profile/filter.go'
OUT = '/tmp/c06-demo/hide_ignores_filename'
SUBS = [
    ("""	for _, ln := range loc.Line {
		if fn := ln.Function; fn != nil {
			if re.MatchString(fn.Name) || re.MatchString(fn.Filename) {
				continue
			}
		}
		lines = append(lines, ln)""", """	for _, ln := range loc.Line {
		if fn := ln.Function; fn != nil {
			if re.MatchString(fn.Name) {
				continue
			}
		}
		lines = append(lines, ln)"""),
]
s = open(SRC).read()
for old, new in SUBS:
    assert s.count(old) == 1, 'pattern not found exactly once in ' + SRC + ': ' + old
    s = s.replace(old, new)
os.makedirs(OUT, exist_ok=True)
dst = os.path.join(OUT, os.path.basename(SRC))
open(dst, 'w').write(s)
ov = os.path.join(OUT, 'overlay.json')
json.dump({'Replace': {SRC: dst}}, open(ov, 'w'))
print(ov)
