"""Detection demo for C14 (not part of the machinery): fragmentation profiles get period 2 instead of 1 (same kind as DESIGN demo 'period / 2 removed', on a format without a captured test file)

Usage:  python3 C14_fragmentation_period.py   -> prints the path of a `go build -overlay` JSON that replaces
/repo/profile/legacy_profile.go by a mutated copy (exact-text substitution on the current file; /repo is not touched):
    cd /repo && go test -overlay <json> -vet=off -count=1 ./...      # the existing suite still passes
    cd /verif && ./pmc check C14 --solo --extra <json>               # C14 reports: period/heap.fragmentation, period/heap.fragmentationz
"""
import json, os
R = '/repo/'
rel = 'profile/legacy_profile.go'
old = '} else if header = fragmentationHeaderRE.FindStringSubmatch(line); header != nil {\n\t\tp.Period = 1'
new = '} else if header = fragmentationHeaderRE.FindStringSubmatch(line); header != nil {\n\t\tp.Period = 2'
s = open(R + rel).read()
assert s.count(old) == 1, 'mutation site not found exactly once'
s = s.replace(old, new)
d = '/tmp/c14-demo/fragmentation_period'
os.makedirs(d, exist_ok=True)
dst = d + '/' + rel.replace('/', '__')
open(dst, 'w').write(s)
json.dump({"Replace": {R + rel: dst}}, open(d + '/overlay.json', 'w'))
print(d + '/overlay.json')
