"""Detection demo for C14 (not part of the machinery): Java 'generated stub/JIT' locations keep their raw text instead of the documented name STUB

Usage:  python3 C14_java_stub_name.py   -> prints the path of a `go build -overlay` JSON that replaces
/repo/profile/legacy_java_profile.go by a mutated copy (exact-text substitution on the current file; /repo is not touched):
    cd /repo && go test -overlay <json> -vet=off -count=1 ./...      # the existing suite still passes
    cd /verif && ./pmc check C14 --solo --extra <json>               # C14 reports: symbol/java.heapz, symbol/java.contentionz, symbol/cpu.java*
"""
import json, os
R = '/repo/'
rel = 'profile/legacy_java_profile.go'
old = 'lineFunc = "STUB"'
new = 'lineFunc = jloc[2]'
s = open(R + rel).read()
assert s.count(old) == 1, 'mutation site not found exactly once'
s = s.replace(old, new)
d = '/tmp/c14-demo/java_stub_name'
os.makedirs(d, exist_ok=True)
dst = d + '/' + rel.replace('/', '__')
open(dst, 'w').write(s)
json.dump({"Replace": {R + rel: dst}}, open(d + '/overlay.json', 'w'))
print(d + '/overlay.json')
