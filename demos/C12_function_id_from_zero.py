"""Detection demo for C12 (new functions numbered from len(Function), not from 1).

addFunction hands out the id before counting the new function, so the first function added to a
profile without functions gets the reserved id 0 and the profile is invalid.
Prints the path of a `go build -overlay` JSON that replaces /repo/internal/symbolizer/symbolizer.go with
mutated copies (exact-text substitution on the current files; /repo is not
touched). By default the candidate repairs of the defects C12 already reports
on the pinned tree (F8a: new function ids = len(Function)+1 collide with
sparse ids, in symbolizer.go and symbolz.go; F8b: Demangle empties the name
"<unknown>") are applied to the same copies first when /repo does not contain
them yet, so that the only violation left is the one the mutation causes; pass
--no-fixes to mutate the files as they are.
    ov=$(python3 /verif/demos/C12_function_id_from_zero.py)
    cd /repo && go test -overlay $ov -vet=off -count=1 ./...     # suite still passes
    cd /verif && ./pmc check C12 --solo --extra $ov               # reports VIOLATION
Expected class: valid/function/local (and e2e/profile-refused)
"""
import json, os, sys
R = '/repo/'
NAME = 'function_id_from_zero'
SYMBOLIZER = 'internal/symbolizer/symbolizer.go'
SYMBOLZ = 'internal/symbolz/symbolz.go'
FIXES = {
    SYMBOLIZER: [
        # F8a (local path): fresh ids above the largest existing one
        ("""	functions := map[profile.Function]*profile.Function{}
	addFunction := func(f *profile.Function) *profile.Function {
		if fp := functions[*f]; fp != nil {
			return fp
		}
		functions[*f] = f
		f.ID = uint64(len(prof.Function)) + 1""", """	var maxFunctionID uint64
	for _, f := range prof.Function {
		if f.ID > maxFunctionID {
			maxFunctionID = f.ID
		}
	}
	functions := map[profile.Function]*profile.Function{}
	addFunction := func(f *profile.Function) *profile.Function {
		if fp := functions[*f]; fp != nil {
			return fp
		}
		functions[*f] = f
		maxFunctionID++
		f.ID = maxFunctionID"""),
        # F8b: keep the name when the simplification heuristic empties it
        ("""	fn.Name = name
}""", """	if name != "" {
		fn.Name = name
	}
}"""),
    ],
    SYMBOLZ: [
        # F8a (symbolz path)
        ("""	lines := make(map[uint64]profile.Line)
	functions := make(map[string]*profile.Function)
""", """	lines := make(map[uint64]profile.Line)
	functions := make(map[string]*profile.Function)
	var maxFunctionID uint64
	for _, f := range p.Function {
		if f.ID > maxFunctionID {
			maxFunctionID = f.ID
		}
	}
"""),
        ("""				fn = &profile.Function{
					ID:         uint64(len(p.Function) + 1),""", """				maxFunctionID++
				fn = &profile.Function{
					ID:         maxFunctionID,"""),
    ],
}
# the mutation: (file, old, new); applied after the repairs
MUTATIONS = [(SYMBOLIZER, "		maxFunctionID++\n		f.ID = maxFunctionID\n", "		f.ID = maxFunctionID\n		maxFunctionID++\n")] if not ('--no-fixes' in sys.argv) or 'maxFunctionID' in open(R + SYMBOLIZER).read() else [(SYMBOLIZER, "f.ID = uint64(len(prof.Function)) + 1", "f.ID = uint64(len(prof.Function))")]
out = {}
nofix = '--no-fixes' in sys.argv
for rel in (SYMBOLIZER, SYMBOLZ):
    s = open(R + rel).read()
    t = s
    if not nofix:
        for fo, fn in FIXES[rel]:
            if fo in t:  # absent once the repair is committed to /repo
                t = t.replace(fo, fn, 1)
    for mrel, old, new in MUTATIONS:
        if mrel == rel:
            assert t.count(old) == 1, (rel, 'pattern must occur exactly once', t.count(old), old[:60])
            t = t.replace(old, new, 1)
    if t != s:
        out[rel] = t
d = '/tmp/c12-demo/' + NAME
os.makedirs(d, exist_ok=True)
ov = {}
for rel, text in out.items():
    dst = d + '/' + rel.replace('/', '__')
    open(dst, 'w').write(text)
    ov[R + rel] = dst
json.dump({"Replace": ov}, open(d + '/overlay.json', 'w'))
print(d + '/overlay.json')
