"""Detection demo for C18 (callgrind: relative subposition computed in 32 bits).

callgrindAddress computes the difference to the previous address in 32 bits, so two
addresses more than 2 GiB apart (but close enough for the relative form to be the shorter
one, e.g. 0x1000000007 and 0x200000000e) get a relative subposition that decodes to a wrong
address. The addresses of pprof's test profiles are all small.
Prints the path of a `go build -overlay` JSON that replaces /repo/internal/report/report.go
with a mutated copy (exact-text substitution on the current file; /repo is not touched). By
default the candidate repairs of the defects C18 already reports on the pinned tree are
applied first (see demos/C18_candidate_fix.py); pass --no-fixes to mutate the files as they are.
    ov=$(python3 /verif/demos/C18_callgrind_addr_diff_32bit.py)
    cd /repo && go test -overlay $ov -vet=off -count=1 ./...     # suite still passes
    cd /verif && ./pmc check C18 --solo --extra $ov               # reports VIOLATION
Expected class: callgrind/position/cost-line-not-an-entry (and callgrind/position/call-target-not-a-callee)
"""
import os, sys
sys.path.insert(0, os.path.dirname(os.path.abspath(__file__)))
from C18_candidate_fix import build, ALL
rel = 'internal/report/report.go'
old = """	diff := int64(curr - prev)
"""
new = """	diff := int64(int32(curr - prev))
"""
fixes = [] if '--no-fixes' in sys.argv else ALL
print(build(fixes, '/tmp/c18-demo/callgrind_addr_diff_32bit', [(rel, old, new)]))
