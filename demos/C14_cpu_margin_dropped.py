"""Detection demo for C14 (not part of the machinery): the signal-frame removal of binary CPU profiles no longer tolerates one differing sample per 32 ('shared by nearly all samples' becomes 'by all samples')

Usage:  python3 C14_cpu_margin_dropped.py   -> prints the path of a `go build -overlay` JSON that replaces
/repo/profile/legacy_profile.go by a mutated copy (exact-text substitution on the current file; /repo is not touched):
    cd /repo && go test -overlay <json> -vet=off -count=1 ./...      # the existing suite still passes
    cd /verif && ./pmc check C14 --solo --extra <json>               # C14 reports: addr/cpu.cpp32le, addr/cpu.cpp32be, addr/cpu.cpp64le, addr/cpu.cpp64be
"""
import json, os
R = '/repo/'
rel = 'profile/legacy_profile.go'
old = 'margin := len(p.Sample) / similarSamples'
new = 'margin := 0 * len(p.Sample) / similarSamples'
s = open(R + rel).read()
assert s.count(old) == 1, 'mutation site not found exactly once'
s = s.replace(old, new)
d = '/tmp/c14-demo/cpu_margin_dropped'
os.makedirs(d, exist_ok=True)
dst = d + '/' + rel.replace('/', '__')
open(dst, 'w').write(s)
json.dump({"Replace": {R + rel: dst}}, open(d + '/overlay.json', 'w'))
print(d + '/overlay.json')
