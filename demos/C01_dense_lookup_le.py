"""Detection demo for C01 (dense-table test `lid <` -> `lid <=` in the sample location lookup of postDecode).

Prints the path of a `go build -overlay` JSON that replaces /repo/profile/encode.go with a
mutated copy (exact-text substitution on the current file; /repo is not touched):
    ov=$(python3 /verif/demos/C01_dense_lookup_le.py)
    cd /repo && go test -overlay $ov -vet=off -count=1 ./...     # suite still passes
    cd /verif && ./pmc check C01 --solo --extra $ov               # reports VIOLATION
Expected class: panic/write-parse (location id = number of locations + 1)
"""
import json, os
R = '/repo/'
rel = 'profile/encode.go'
old = '\t\t\tif lid < uint64(len(locationIds)) {\n\t\t\t\ts.Location[i] = locationIds[lid]'
new = '\t\t\tif lid <= uint64(len(locationIds)) {\n\t\t\t\ts.Location[i] = locationIds[lid]'
s = open(R + rel).read()
assert s.count(old) == 1, (rel, 'pattern must occur exactly once', s.count(old))
s = s.replace(old, new, 1)
d = '/tmp/c01-demo/dense_lookup_le'
os.makedirs(d, exist_ok=True)
dst = d + '/' + rel.replace('/', '__')
open(dst, 'w').write(s)
json.dump({"Replace": {R + rel: dst}}, open(d + '/overlay.json', 'w'))
print(d + '/overlay.json')
