#!/usr/bin/env python3
"""C06 detection demo range_second_unit_ignored: the upper bound of a closed range N:M is read in the unit of the lower bound (1b:2kb becomes 1b:2b).

Exact-text substitution on the current /repo/internal/driver/driver_focus.go; nothing under /repo is
touched. Prints the path of a `go build -overlay` json:
    ov=$(python3 /verif/demos/C06_range_second_unit_ignored.py)
    cd /repo && go test -overlay $ov -vet=off -count=1 ./...     # existing suite
    cd /verif && ./pmc check C06 --solo --extra $ov              # must report a VIOLATION
"""
import json, os
SRC = '/repo/internal/driver/driver_focus.go'
OUT = '/tmp/c06-demo/range_second_unit_ignored'
SUBS = [
    ("scaledValue2, unit2 := measurement.Scale(v, ranges[1][2], unit)", "scaledValue2, unit2 := measurement.Scale(v, ranges[0][2], unit)"),
]
s = open(SRC).read()
for old, new in SUBS:
    assert s.count(old) == 1, 'pattern not found exactly once in ' + SRC + ': ' + old
    s = s.replace(old, new)
os.makedirs(OUT, exist_ok=True)
dst = os.path.join(OUT, os.path.basename(SRC))
open(dst, 'w').write(s)
ov = os.path.join(OUT, 'overlay.json')
json.dump({'Replace': {SRC: dst}}, open(ov, 'w'))
print(ov)
