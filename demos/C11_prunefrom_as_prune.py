#!/usr/bin/env python3
"""C11 detection demo prunefrom_as_prune: the driver applies the prune_from expression with Prune instead of PruneFrom (the matching frame itself goes, found scanning from the root).

Exact-text substitution on the current /repo/internal/driver/driver_focus.go; nothing under /repo is
touched. Prints the path of a `go build -overlay` json:
    ov=$(python3 /verif/demos/C11_prunefrom_as_prune.py)
    cd /repo && go test -overlay $ov -vet=off -count=1 ./...     # existing suite
    cd /verif && ./pmc check C11 --solo --extra $ov              # must report a VIOLATION
"""
import json, os
SRC = '/repo/internal/driver/driver_focus.go'
OUT = '/tmp/c11-demo/prunefrom_as_prune'
OLD = '\t\tprof.PruneFrom(prunefrom)\n'
NEW = '\t\tprof.Prune(prunefrom, nil)\n'
s = open(SRC).read()
assert s.count(OLD) == 1, 'pattern not found exactly once in ' + SRC
os.makedirs(OUT, exist_ok=True)
dst = os.path.join(OUT, os.path.basename(SRC))
open(dst, 'w').write(s.replace(OLD, NEW))
ov = os.path.join(OUT, 'overlay.json')
json.dump({'Replace': {SRC: dst}}, open(ov, 'w'))
print(ov)
