"""Detection demo for C15 (Percentage forgets the absolute value).

`math.Abs(float64(value)/float64(total))` loses its math.Abs: negative ratios print as negative percentages.
Prints the path of a `go build -overlay` JSON that replaces
/repo/internal/measurement/measurement.go with a mutated copy (exact-text substitution on the
current file; /repo is not touched). By default the candidate repairs of the defects C15
already reports on the pinned tree (F9 alias lookup, F4alt in-place scaling, and the
MinInt64 auto-unit repair) are applied to the same copy first, so that the only violation
left is the one the mutation causes; pass --no-fixes to mutate the file as it is.
    ov=$(python3 /verif/demos/C15_percentage_signed.py)
    cd /repo && go test -overlay $ov -vet=off -count=1 ./...     # suite still passes
    cd /verif && ./pmc check C15 --solo --extra $ov               # reports VIOLATION
Expected class: percentage/sign (and percentage/value)
"""
import json, os, sys
R = '/repo/'
rel = 'internal/measurement/measurement.go'
FIXES = [
    # F9: exact alias lookup before plural stripping
    ("""	unit = strings.ToLower(unit)
	if len(unit) > 2 {""", """	unit = strings.ToLower(unit)
	if u := ut.findByAlias(unit); u != nil {
		return u
	}
	if len(unit) > 2 {"""),
    # F4alt: scale in place instead of Profile.ScaleN (which drops samples)
    ("""		if err := p.ScaleN(ratios); err != nil {
			return fmt.Errorf("scale: %v", err)
		}""", """		for _, s := range p.Sample {
			for i, v := range s.Value {
				if ratios[i] != 1 {
					s.Value[i] = int64(math.Round(float64(v) * ratios[i]))
				}
			}
		}"""),
    # auto-unit for MinInt64 (the only value Scale cannot negate)
    ("""		if u.Factor >= f && (value/u.Factor) >= 1.0 {""", """		if u.Factor >= f && math.Abs(value/u.Factor) >= 1.0 {"""),
]
old = 'ratio = math.Abs(float64(value)/float64(total)) * 100'
new = 'ratio = float64(value) / float64(total) * 100'
s = open(R + rel).read()
if '--no-fixes' not in sys.argv:
    for fo, fn in FIXES:
        if fo in s:  # absent once the repair is committed to /repo
            s = s.replace(fo, fn, 1)
assert s.count(old) == 1, (rel, 'pattern must occur exactly once', s.count(old))
s = s.replace(old, new, 1)
d = '/tmp/c15-demo/percentage_signed'
os.makedirs(d, exist_ok=True)
dst = d + '/' + rel.replace('/', '__')
open(dst, 'w').write(s)
json.dump({"Replace": {R + rel: dst}}, open(d + '/overlay.json', 'w'))
print(d + '/overlay.json')
