#!/usr/bin/env python3
"""C06 detection demo range_upto_lt: the open range :N of tagfocus/tagignore excludes its bound (<= became <).

Exact-text substitution on the current /repo/internal/driver/driver_focus.go; nothing under /repo is
touched. Prints the path of a `go build -overlay` json:
    ov=$(python3 /verif/demos/C06_range_upto_lt.py)
    cd /repo && go test -overlay $ov -vet=off -count=1 ./...     # existing suite
    cd /verif && ./pmc check C06 --solo --extra $ov              # must report a VIOLATION
"""
import json, os
SRC = '/repo/internal/driver/driver_focus.go'
OUT = '/tmp/c06-demo/range_upto_lt'
SUBS = [
    ("return su == unit && sv <= scaledValue\n", "return su == unit && sv < scaledValue\n"),
]
s = open(SRC).read()
for old, new in SUBS:
    assert s.count(old) == 1, 'pattern not found exactly once in ' + SRC + ': ' + old
    s = s.replace(old, new)
os.makedirs(OUT, exist_ok=True)
dst = os.path.join(OUT, os.path.basename(SRC))
open(dst, 'w').write(s)
ov = os.path.join(OUT, 'overlay.json')
json.dump({'Replace': {SRC: dst}}, open(ov, 'w'))
print(ov)
