"""Detection demo for C14 (not part of the machinery): the heap header test for distinct allocation columns looks at the wrong total: a header with allocation totals 0: 0 is taken to have allocation columns

Usage:  python3 C14_heap_alloc_columns.py   -> prints the path of a `go build -overlay` JSON that replaces
/repo/profile/legacy_profile.go by a mutated copy (exact-text substitution on the current file; /repo is not touched):
    cd /repo && go test -overlay <json> -vet=off -count=1 ./...      # the existing suite still passes
    cd /verif && ./pmc check C14 --solo --extra <json>               # C14 reports: types/heap.heap, types/heap.heap_v2, types/heap.heapz_v2, types/heap.heapprofile
"""
import json, os
R = '/repo/'
rel = 'profile/legacy_profile.go'
old = '(header[4] != header[2] && header[4] != "0")'
new = '(header[4] != header[2] && header[2] != "0")'
s = open(R + rel).read()
assert s.count(old) == 1, 'mutation site not found exactly once'
s = s.replace(old, new)
d = '/tmp/c14-demo/heap_alloc_columns'
os.makedirs(d, exist_ok=True)
dst = d + '/' + rel.replace('/', '__')
open(dst, 'w').write(s)
json.dump({"Replace": {R + rel: dst}}, open(d + '/overlay.json', 'w'))
print(d + '/overlay.json')
