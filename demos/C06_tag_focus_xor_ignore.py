#!/usr/bin/env python3
"""C06 detection demo tag_focus_xor_ignore: FilterSamplesByTag keeps a sample when exactly one of tagfocus/tagignore matches (focused != ignored), i.e. also samples that are ignored and not focused.

Exact-text substitution on the current /repo/profile/filter.go; nothing under /repo is
touched. Prints the path of a `go build -overlay` json:
    ov=$(python3 /verif/demos/C06_tag_focus_xor_ignore.py)
    cd /repo && go test -overlay $ov -vet=off -count=1 ./...     # existing suite
    cd /verif && ./pmc check C06 --solo --extra $ov              # must report a VIOLATION
"""
import json, os
SRC = '/repo/profile/filter.go'
OUT = '/tmp/c06-demo/tag_focus_xor_ignore'
SUBS = [
    ("		if focused && !ignored {\n			samples = append(samples, s)", "		if focused != ignored {\n			samples = append(samples, s)"),
]
s = open(SRC).read()
for old, new in SUBS:
    assert s.count(old) == 1, 'pattern not found exactly once in ' + SRC + ': ' + old
    s = s.replace(old, new)
os.makedirs(OUT, exist_ok=True)
dst = os.path.join(OUT, os.path.basename(SRC))
open(dst, 'w').write(s)
ov = os.path.join(OUT, 'overlay.json')
json.dump({'Replace': {SRC: dst}}, open(ov, 'w'))
print(ov)
