#!/usr/bin/env python3
"""seedeval.py <tag> [--checks C04,C05] [--tier quick] [--inplace]

Confirms and evaluates a seeded property-breaking change delivered in /tmp/<tag>-out
(patch.diff, demo test file(s), meta.json):
  1. in a fresh scratch worktree of /repo (removed afterwards): the patch applies and
     builds, pprof's own suite passes with it, the demo FAILS with it and PASSES without it;
  2. the /verif checks named (default: the property of the change) are run against the
     patched tree - through an overlay built from the scratch worktree (default, /repo is
     never touched) or, with --inplace, by `git -C /repo apply` and `git -C /repo checkout -- .`;
  3. everything is recorded in /verif/seeded/<tag>/ (patch.diff, demo, meta.json).
"""
import json, os, shutil, subprocess, sys, glob

V = '/verif'
ENV = dict(os.environ, GOFLAGS='-mod=mod', GOPROXY='off', GOSUMDB='off', GOTOOLCHAIN='local')


def sh(cmd, cwd=None, timeout=3600):
    r = subprocess.run(cmd, cwd=cwd, env=ENV, shell=isinstance(cmd, str), stdout=subprocess.PIPE, stderr=subprocess.STDOUT, text=True, errors="replace", timeout=timeout)
    return r.returncode, r.stdout


def main():
    tag = sys.argv[1]
    args = sys.argv[2:]
    checks, tier, inplace, checkonly = None, 'quick', False, False
    i = 0
    while i < len(args):
        if args[i] == '--checks':
            checks = args[i + 1].split(','); i += 2
        elif args[i] == '--tier':
            tier = args[i + 1]; i += 2
        elif args[i] == '--inplace':
            inplace = True; i += 1
        elif args[i] == '--checkonly':
            checkonly = True; i += 1  # regression: the change was confirmed before; only re-run the checks
        else:
            i += 1
    src = '/tmp/%s-out' % tag
    if not os.path.exists(os.path.join(src, 'meta.json')):
        src = os.path.join(V, 'seeded', tag)  # re-evaluation of a change that is already kept
    meta = json.load(open(os.path.join(src, 'meta.json')))
    prop = meta['property']
    checks = checks or [prop]
    dst = os.path.join(V, 'seeded', tag)
    os.makedirs(dst, exist_ok=True)
    kept = {}
    try:  # notes added after the delivery live in the kept meta.json only: carry them over
        kept = json.load(open(os.path.join(dst, 'meta.json')))
        for k in ('first_run', 'rebased'):
            if k in kept and k not in meta:
                meta[k] = kept[k]
    except Exception:
        pass
    if checkonly and checks == [prop] and kept.get('confirmation', {}).get('checks'):
        checks = list(kept['confirmation']['checks'])  # regression: the checks the change was evaluated with
    nested = []  # demo files delivered with their path inside the repository
    for root, _, fs in os.walk(src):
        for f in fs:
            rel = os.path.relpath(os.path.join(root, f), src)
            os.makedirs(os.path.dirname(os.path.join(dst, rel)) or dst, exist_ok=True)
            if os.path.abspath(src) != os.path.abspath(dst):
                shutil.copy(os.path.join(root, f), os.path.join(dst, rel))
            if os.sep in rel and rel.endswith('.go'):
                nested.append(rel)
    patch = os.path.join(dst, 'patch.diff')
    demos = [f for f in os.listdir(dst) if f.endswith('_test.go') or (f.endswith('.go') and f != 'patch.diff')]
    wt = '/tmp/seedeval-' + tag
    sh(['git', '-C', '/repo', 'worktree', 'remove', '--force', wt])
    rc, out = sh(['git', '-C', '/repo', 'worktree', 'add', '--detach', wt, 'HEAD'])
    ran = []
    res = {'applies': False}
    try:
        rc, out = sh(['git', '-C', wt, 'apply', patch])
        res['applies'] = rc == 0
        ran.append('git apply patch.diff (scratch worktree of /repo HEAD %s)' % sh(['git', '-C', '/repo', 'rev-parse', '--short', 'HEAD'])[1].strip())
        if rc != 0:
            res['error'] = out[-800:]
            return finish(dst, meta, res, ran)
        changed = sh(['git', '-C', wt, 'diff', '--name-only'])[1].split()
        if checkonly:
            old = kept  # the kept meta.json as it was before the delivery was copied over it
            res = dict(old.get('confirmation', {}), applies=True)
            ran = list(old.get('what_was_run', []))
            rep = {}
            ovdir = '/tmp/seedeval-ov-' + tag
            shutil.rmtree(ovdir, ignore_errors=True)
            os.makedirs(ovdir)
            for f in changed:
                c = os.path.join(ovdir, f.replace('/', '__'))
                shutil.copy(os.path.join(wt, f), c)
                rep['/repo/' + f] = c
            ov = os.path.join(ovdir, 'overlay.json')
            json.dump({'Replace': rep}, open(ov, 'w'))
            det = {}
            for c in checks:
                rc, out = sh([os.path.join(V, 'pmc'), 'check', c, '--tier', tier, '--extra', ov], cwd=V)
                classes = [l.split('class=')[1].split(' cases=')[0] for l in out.split('\n') if 'class=' in l and 'cases=' in l]
                det[c] = {'exit': rc, 'violation_classes': classes[:12], 'detected': rc == 1}
                ran.append('regression: ./pmc check %s --tier %s --extra <overlay of the patched files>  -> exit %d' % (c, tier, rc))
            res['checks'] = det
            shutil.rmtree(ovdir, ignore_errors=True)
            meta['confirmed'] = old.get('confirmed', False)
            meta['confirmation'] = res
            meta['what_was_run'] = ran[-12:]
            if 'first_run' in old:
                meta['first_run'] = old['first_run']
            json.dump(meta, open(os.path.join(dst, 'meta.json'), 'w'), indent=1)
            print(tag, json.dumps({c: (v['detected'], v['violation_classes'][:2]) for c, v in det.items()}))
            return
        rc, out = sh('go build ./... && go test -vet=off -count=1 ./...', cwd=wt)
        res['suite_passes_with_patch'] = rc == 0
        ran.append('go build ./... && go test -vet=off -count=1 ./...  (with patch) -> %s' % ('pass' if rc == 0 else 'FAIL'))
        if rc != 0:
            res['suite_output'] = out[-1500:]
        # demo: where does it go? use meta["demo_dir"] or the package of the first changed file / recorded path in meta.demo
        demo_dir = meta.get('demo_dir')
        if not demo_dir:
            # guess from the demo command in meta
            cmdtxt = meta.get('demo', '')
            for tok in cmdtxt.replace('=', ' ').split():
                if tok.startswith('./') and os.path.isdir(os.path.join(wt, tok.rstrip('/.').lstrip('./'))):
                    demo_dir = tok.rstrip('/.').lstrip('./')
            if not demo_dir and changed:
                demo_dir = os.path.dirname(changed[0])
        res['demo_dir'] = demo_dir
        for d in demos:
            shutil.copy(os.path.join(dst, d), os.path.join(wt, demo_dir, d))
        pkgs = ['./' + demo_dir] if demos else []
        for rel in nested:
            shutil.copy(os.path.join(dst, rel), os.path.join(wt, rel))
            if './' + os.path.dirname(rel) not in pkgs:
                pkgs.append('./' + os.path.dirname(rel))
        runpat = meta.get('demo_run', '')
        democmd = 'go test -vet=off -count=1 %s %s' % (('-run ' + runpat) if runpat else '', ' '.join(pkgs))
        rc1, out1 = sh(democmd, cwd=wt)
        res['demo_fails_with_patch'] = rc1 != 0
        ran.append(democmd + ' (with patch) -> %s' % ('fails' if rc1 != 0 else 'PASSES'))
        res['demo_output_with_patch'] = out1[-1200:]
        # overlay for the checks (source files only)
        rep = {}
        ovdir = '/tmp/seedeval-ov-' + tag
        shutil.rmtree(ovdir, ignore_errors=True)
        os.makedirs(ovdir)
        for f in changed:
            c = os.path.join(ovdir, f.replace('/', '__'))
            shutil.copy(os.path.join(wt, f), c)
            rep['/repo/' + f] = c
        ov = os.path.join(ovdir, 'overlay.json')
        json.dump({'Replace': rep}, open(ov, 'w'))
        # without the patch
        sh(['git', '-C', wt, 'apply', '-R', patch])
        rc2, out2 = sh(democmd, cwd=wt)
        res['demo_passes_without_patch'] = rc2 == 0
        ran.append(democmd + ' (without patch) -> %s' % ('passes' if rc2 == 0 else 'FAILS'))
        if rc2 != 0:
            res['demo_output_without_patch'] = out2[-1200:]
        # run the checks
        det = {}
        for c in checks:
            if inplace:
                sh(['git', '-C', '/repo', 'apply', patch])
                rc, out = sh([os.path.join(V, 'pmc'), 'check', c, '--tier', tier, '--noevidence'], cwd=V)
                sh(['git', '-C', '/repo', 'checkout', '--', '.'])
                ran.append('git -C /repo apply patch.diff; ./pmc check %s --tier %s; git -C /repo checkout -- .  -> exit %d' % (c, tier, rc))
            else:
                rc, out = sh([os.path.join(V, 'pmc'), 'check', c, '--tier', tier, '--extra', ov], cwd=V)
                ran.append('./pmc check %s --tier %s --extra <overlay of the patched files>  -> exit %d' % (c, tier, rc))
            classes = [l.split('class=')[1].split(' cases=')[0] for l in out.split('\n') if 'class=' in l and 'cases=' in l]
            det[c] = {'exit': rc, 'violation_classes': classes[:12], 'detected': rc == 1}
        res['checks'] = det
        shutil.rmtree(ovdir, ignore_errors=True)
    finally:
        sh(['git', '-C', '/repo', 'worktree', 'remove', '--force', wt])
        shutil.rmtree(wt, ignore_errors=True)
    finish(dst, meta, res, ran)


def finish(dst, meta, res, ran):
    try:
        old = json.load(open(os.path.join(dst, 'meta.json')))
        if 'first_run' in old and 'first_run' not in meta:
            meta['first_run'] = old['first_run']
    except Exception:
        pass
    meta['confirmed'] = bool(res.get('applies') and res.get('suite_passes_with_patch') and res.get('demo_fails_with_patch') and res.get('demo_passes_without_patch'))
    meta['confirmation'] = res
    meta['what_was_run'] = ran
    json.dump(meta, open(os.path.join(dst, 'meta.json'), 'w'), indent=1)
    print(json.dumps({k: meta[k] for k in ('property', 'summary', 'confirmed')}, indent=1))
    print(json.dumps(res.get('checks'), indent=1))
    if not meta['confirmed']:
        print('NOT CONFIRMED:', {k: v for k, v in res.items() if k not in ('checks',)})


if __name__ == '__main__':
    main()
